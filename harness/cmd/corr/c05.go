package main

import (
	"bytes"
	"encoding/binary"
	"fmt"
	"strings"
	"time"

	"go.nanomsg.org/mangos/v3"
	"go.nanomsg.org/mangos/v3/protocol/rep"
	"go.nanomsg.org/mangos/v3/protocol/respondent"
	"go.nanomsg.org/mangos/v3/protocol/xrep"
	"go.nanomsg.org/mangos/v3/protocol/xrespondent"
)

func init() { props["C05"] = runC05 }

type repFlavor struct {
	name   string
	mk     func() mangos.ProtocolBase
	cooked bool
}

var repFlavors = []repFlavor{
	{"rep", rep.NewProtocol, true}, {"respondent", respondent.NewProtocol, true},
	{"xrep", xrep.NewProtocol, false}, {"xrespondent", xrespondent.NewProtocol, false},
}

type reqInfo struct {
	pipe  int
	words []byte // routing words the request carried
}

func runRepScenario(c *Ctx, fl repFlavor, nops int) {
	e := NewExec(c, "m.rep", fl.mk(), fl.name)
	pipes := []int{}
	removed := map[int]bool{}
	held := map[int]bool{}
	next := 600
	tag := 0
	reqs := map[int]reqInfo{} // request tag -> where it came from
	ctxs := []int{0}
	closedCtx := map[int]bool{}
	lastReq := map[int]int{}    // ctx -> tag of the last request Recv returned (cooked)
	lastHdr := map[int][]byte{} // raw: header returned with the request
	parkedRecv := map[int]int{} // ctx -> call
	callCtx := map[int]int{}
	replyOf := map[int]reqInfo{} // reply tag -> expected destination
	replyDead := map[int]bool{}  // reply sent after its pipe had gone
	rtag := 0
	ttl := 8
	look := func() {
		for _, ev := range splitEvents(lastObs(e)) {
			switch ev.kind {
			case "ret":
				cx, ok := callCtx[ev.call]
				if !ok {
					continue
				}
				if parkedRecv[cx] == ev.call {
					delete(parkedRecv, cx)
				}
				if ev.msg != nil && len(ev.msg) >= 2 {
					t := int(ev.msg[len(ev.msg)-2])<<8 | int(ev.msg[len(ev.msg)-1])
					lastReq[cx] = t
					lastHdr[cx] = ev.hdr
					if !fl.cooked {
						ri := reqs[t]
						want := append(be32(uint32(ri.pipe)), ri.words...)
						if !bytes.Equal(ev.hdr, want) {
							c.Violate(fmt.Sprintf("%s: request #%d from pipe %d surfaced with header %x, expected pipe id + its routing words %x", fl.name, t, ri.pipe, ev.hdr, want), e.Replay())
						}
					}
				}
			case "tx":
				if len(ev.msg) < 3 || ev.msg[0] != 'R' {
					continue
				}
				t := int(ev.msg[1])<<8 | int(ev.msg[2])
				want, ok := replyOf[t]
				if !ok {
					c.Violate(fmt.Sprintf("%s: a reply that was never sent (%x) was transmitted", fl.name, ev.msg), e.Replay())
					continue
				}
				if ev.pipe != want.pipe {
					c.Violate(fmt.Sprintf("%s: reply #%d went to pipe %d; the request it answers arrived on pipe %d", fl.name, t, ev.pipe, want.pipe), e.Replay())
				}
				if !bytes.Equal(ev.hdr, want.words) {
					c.Violate(fmt.Sprintf("%s: reply #%d carries routing header %x; the request carried %x", fl.name, t, ev.hdr, want.words), e.Replay())
				}
				if replyDead[t] {
					c.Violate(fmt.Sprintf("%s: reply #%d was transmitted although the requesting connection had gone before it was sent", fl.name, t), e.Replay())
				}
			case "closed":
				removed[ev.pipe] = true
				for i, p := range pipes {
					if p == ev.pipe {
						pipes = append(pipes[:i:i], pipes[i+1:]...)
						break
					}
				}
			}
		}
	}
	addPipe := func() {
		next++
		if e.AddPipe(next) == "ok" {
			pipes = append(pipes, next)
		}
	}
	addPipe()
	for i := 0; i < nops && !e.broken; i++ {
		n0 := len(e.ops)
		cx := ctxs[c.R.Intn(len(ctxs))]
		switch k := c.R.Intn(24); {
		case k < 7: // a request arrives
			if len(pipes) == 0 {
				continue
			}
			p := pipes[c.R.Intn(len(pipes))]
			tag++
			kw := c.R.Pick(1, 1, 2, 3)
			if c.R.Intn(12) == 0 {
				kw = 9 // beyond the default TTL: dropped
			}
			if ttl > 8 && c.R.Intn(3) == 0 {
				kw = 8 + c.R.Intn(ttl-7) // a raised hop limit admits deeper routing headers: 8 … ttl+1 words
			}
			var words []byte
			for j := 0; j < kw-1; j++ {
				w := make([]byte, 4)
				binary.BigEndian.PutUint32(w, uint32(c.R.U64())&0x7fffffff)
				words = append(words, w...)
			}
			w := make([]byte, 4)
			binary.BigEndian.PutUint32(w, uint32(c.R.U64())|0x80000000)
			if c.R.Intn(6) == 0 {
				// the id every REQ socket uses each time its 31-bit counter wraps: the request bit and nothing else
				binary.BigEndian.PutUint32(w, 0x80000000)
			}
			words = append(words, w...)
			reqs[tag] = reqInfo{p, words}
			body := append(append([]byte{}, words...), byte(tag>>8), byte(tag))
			e.Inject(p, body)
			look()
		case k < 13: // Recv
			if closedCtx[cx] {
				continue
			}
			if _, busy := parkedRecv[cx]; busy && fl.name != "rep" {
				continue
			}
			if !fl.cooked && len(parkedRecv) > 0 {
				continue
			}
			id := e.Recv(cx)
			callCtx[id] = cx
			if _, busy := parkedRecv[cx]; !busy {
				parkedRecv[cx] = id
			}
			look()
		case k < 19: // reply
			if closedCtx[cx] {
				continue
			}
			rtag++
			body := []byte{'R', byte(rtag >> 8), byte(rtag)}
			var hdr []byte
			if fl.cooked {
				if t, ok := lastReq[cx]; ok {
					ri := reqs[t]
					replyOf[rtag] = reqInfo{ri.pipe, ri.words}
					replyDead[rtag] = removed[ri.pipe]
					delete(lastReq, cx)
				}
				if c.R.Intn(5) == 0 {
					hdr = c.R.Bytes(4) // whatever header the application supplies is replaced by the backtrace
				}
			} else {
				h, ok := lastHdr[cx]
				if !ok || len(h) < 4 {
					continue
				}
				hdr = h
				if c.R.Intn(6) == 0 {
					hdr = h[:4] // only the pipe id: what is left of a one-word header after the last device took its word
				}
				h = hdr
				p := int(binary.BigEndian.Uint32(h[:4]))
				replyOf[rtag] = reqInfo{p, h[4:]}
				replyDead[rtag] = removed[p]
				if c.R.Intn(3) != 0 {
					delete(lastHdr, cx)
				}
			}
			id := e.Send(cx, hdr, body)
			callCtx[id] = cx
			look()
		case k == 19:
			if fl.cooked && len(ctxs) < 3 {
				id := len(ctxs)
				if e.OpenCtx(id) == "ok" {
					ctxs = append(ctxs, id)
				}
			} else if len(pipes) < 3 {
				addPipe()
			}
		case k == 20:
			if len(pipes) > 0 {
				p := pipes[c.R.Intn(len(pipes))]
				held[p] = !held[p]
				e.Hold(p, held[p])
			}
		case k == 21:
			if len(pipes) > 0 {
				p := pipes[c.R.Intn(len(pipes))]
				e.Release(p, c.R.Intn(6) != 0)
				if len(e.ops) > n0 {
					look()
				}
			}
		case k == 22:
			if len(pipes) > 0 && c.R.Intn(2) == 0 { // the requesting connection closes at an arbitrary moment
				p := pipes[c.R.Intn(len(pipes))]
				e.RmPipe(p)
				look()
			} else if len(pipes) < 3 {
				addPipe()
			}
		default:
			if c.R.Intn(4) == 0 {
				ttl = c.R.Pick(8, 12, 12, 3)
				e.SetOpt(0, mangos.OptionTTL, fmt.Sprint(ttl), ttl)
			} else if fl.cooked && cx != 0 && !closedCtx[cx] && c.R.Intn(3) == 0 {
				e.CloseCtx(cx)
				closedCtx[cx] = true
				delete(parkedRecv, cx)
				look()
			}
		}
	}
	e.Finish()
}

// directed (cooked flavours): a reply blocked by back-pressure on the asker's pipe gives up at its send deadline while
// the context has meanwhile received a newer request from another pipe: the newer request stays the pending one, and
// its answer goes to the pipe (and with the routing header) of the newer request
func runRepSendTimeoutScenario(c *Ctx, fl repFlavor) {
	e := NewExec(c, "m.rep", fl.mk(), fl.name)
	mkReq := func(word uint32, tag int) ([]byte, []byte) {
		w := be32(word | 0x80000000)
		return w, append(append([]byte{}, w...), byte(tag>>8), byte(tag))
	}
	e.SetOpt(0, mangos.OptionWriteQLen, "1", 1)
	e.AddPipe(601)
	e.AddPipe(602)
	e.SetOpt(0, mangos.OptionSendDeadline, "300", 300*time.Millisecond)
	e.Hold(601, true)
	var lastSend int
	// fill pipe 601's way out: one reply inside the held pipe, one in its queue, the next one blocks
	for i := 1; i <= 3; i++ {
		_, body := mkReq(uint32(0x100+i), i)
		e.Inject(601, body)
		e.Recv(0)
		lastSend = e.Send(0, nil, []byte{'R', 0, byte(i)})
	}
	blocked := !strings.Contains(lastObs(e), fmt.Sprintf("ret:%d:", lastSend))
	wB, bodyB := mkReq(0x222, 9)
	e.Inject(602, bodyB)
	e.Recv(0)
	if blocked {
		e.Op(fmt.Sprintf("expire %d", lastSend), func() { time.Sleep(420 * time.Millisecond) })
	}
	e.Send(0, nil, []byte{'R', 0, 9})
	for _, ev := range splitEvents(lastObs(e)) {
		if ev.kind == "tx" && len(ev.msg) == 3 && ev.msg[2] == 9 && (ev.pipe != 602 || !bytes.Equal(ev.hdr, wB)) {
			c.Violate(fmt.Sprintf("%s: the reply to the request from pipe 602 (routing header %x) was handed to pipe %d with header %x — the path of an earlier request whose reply had timed out", fl.name, wB, ev.pipe, ev.hdr), e.Replay())
		}
	}
	if blocked && !e.broken && !strings.Contains(lastObs(e), "tx:602:") {
		c.Violate(fmt.Sprintf("%s: the reply to the request from pipe 602 was not handed to pipe 602 (observed: %s) after an earlier reply on the same context had timed out", fl.name, lastObs(e)), e.Replay())
	}
	e.Release(601, true)
	e.Finish()
}

// directed (all four flavours): two connections use the same request id (the ids of different REQ sockets are
// independent counters, collisions are ordinary); the first asker's request is taken, its connection closes, then the
// second asker's request — byte-identical routing words — arrives.  The answer to the first request has nowhere to go:
// it must not be handed to the second asker, whose own request must still be delivered and answered on its own pipe.
func runRepSameIDOtherPipe(c *Ctx, fl repFlavor) {
	e := NewExec(c, "m.rep", fl.mk(), fl.name)
	w := be32(0x80000001)
	e.AddPipe(611)
	e.AddPipe(612)
	body := func(tag byte) []byte { return append(append([]byte{}, w...), 'Q', tag) }
	e.Inject(611, body(1))
	e.Recv(0)
	var hdrA []byte
	for _, ev := range splitEvents(lastObs(e)) {
		if ev.kind == "ret" && ev.hdr != nil {
			hdrA = ev.hdr
		}
	}
	e.RmPipe(611)
	e.Inject(612, body(2))
	// the answer to the first request
	if fl.cooked {
		e.Send(0, nil, []byte{'A', 1})
	} else {
		e.Send(0, hdrA, []byte{'A', 1})
	}
	for _, ev := range splitEvents(lastObs(e)) {
		if ev.kind == "tx" && ev.pipe == 612 {
			c.Violate(fmt.Sprintf("%s: the answer to a request that had arrived on connection 611 (now closed) was handed to connection 612, whose own request carries the same request id %x", fl.name, w), e.Replay())
		}
	}
	// the second asker's own request is still there to be taken and answered
	e.Recv(0)
	got := false
	var hdrB []byte
	for _, ev := range splitEvents(lastObs(e)) {
		if ev.kind == "ret" && len(ev.msg) == 2 && ev.msg[0] == 'Q' && ev.msg[1] == 2 {
			got = true
			hdrB = ev.hdr
		}
	}
	if !got && !e.broken {
		c.Violate(fmt.Sprintf("%s: the request of connection 612 was never handed to the application after a request with the same id from a closed connection had been answered (observed: %s)", fl.name, lastObs(e)), e.Replay())
	}
	if got {
		if fl.cooked {
			e.Send(0, nil, []byte{'A', 2})
		} else {
			e.Send(0, hdrB, []byte{'A', 2})
		}
		ok := false
		for _, ev := range splitEvents(lastObs(e)) {
			if ev.kind == "tx" && ev.pipe == 612 && len(ev.msg) == 2 && ev.msg[1] == 2 {
				ok = true
			}
		}
		if !ok && !e.broken {
			c.Violate(fmt.Sprintf("%s: the answer to connection 612's request did not go to connection 612 (observed: %s)", fl.name, lastObs(e)), e.Replay())
		}
	}
	e.Finish()
}

func runC05(c *Ctx) {
	c.Rep.Rule = "random histories on real rep / respondent / xrep / xrespondent protocol instances: requests with 1-3 (occasionally 9) routing words of random content from 1-3 virtual pipes, Recv/Send on 1-3 contexts, slow and failing reply pipes, the requesting pipe closing at arbitrary moments; " +
		"every operation is a trace line checked against the Lean machine and every transmitted reply against the request it answers; class = (operation, shape of the observable outcome)"
	n := 60
	if c.Thorough() {
		n = 1500
	}
	for i := 0; i < n; i++ {
		for _, fl := range repFlavors {
			runRepScenario(c, fl, 50)
		}
	}
	for _, fl := range repFlavors {
		if fl.cooked {
			runRepSendTimeoutScenario(c, fl)
		}
	}
	for _, fl := range repFlavors {
		runRepSameIDOtherPipe(c, fl)
	}
	runRawRetryAfterTimeout(c)
	runRawReplyToGoneClient(c)
}
