package main

// C18 — deadlines, best-effort and fail-no-peers: every blocking SendMsg / RecvMsg of every protocol is put into a
// chosen starting state (can complete at once / blocked; peers / no peers), called with a chosen configuration
// (deadline, best-effort, fail-no-peers) and subjected to a timeline of events while it is blocked (it becomes
// satisfiable, the queue is resized, the last peer leaves, its owner is closed).  Outcome and elapsed time (monotonic
// clock; the lower bound is exact) go to the Lean model of the call (Model/Wait.lean, `w.run` lines), and are also
// judged directly by the oracles below.

import (
	"fmt"
	"sort"
	"strings"
	"sync"
	"time"

	"go.nanomsg.org/mangos/v3"
	"go.nanomsg.org/mangos/v3/protocol"
	"go.nanomsg.org/mangos/v3/protocol/rep"
	"go.nanomsg.org/mangos/v3/protocol/req"
	"go.nanomsg.org/mangos/v3/protocol/respondent"
	"go.nanomsg.org/mangos/v3/protocol/sub"
	"go.nanomsg.org/mangos/v3/protocol/surveyor"
	"go.nanomsg.org/mangos/v3/protocol/xbus"
	"go.nanomsg.org/mangos/v3/protocol/xpair"
	"go.nanomsg.org/mangos/v3/protocol/xpair1"
	"go.nanomsg.org/mangos/v3/protocol/xpub"
	"go.nanomsg.org/mangos/v3/protocol/xpull"
	"go.nanomsg.org/mangos/v3/protocol/xpush"
	"go.nanomsg.org/mangos/v3/protocol/xrep"
	"go.nanomsg.org/mangos/v3/protocol/xreq"
	"go.nanomsg.org/mangos/v3/protocol/xrespondent"
	"go.nanomsg.org/mangos/v3/protocol/xstar"
	"go.nanomsg.org/mangos/v3/protocol/xsub"
	"go.nanomsg.org/mangos/v3/protocol/xsurveyor"
	"verifharness/vp"
)

const w18slack = 250 // ms; the same constant as Model.Wait.slack

type w18site struct {
	pkg, recv, fn string
	newp          func() mangos.ProtocolBase
	inbound       []byte // a well-formed inbound body for this protocol (receive sites)
	hdr           func(pipe uint32) []byte
	fam           string // recv | recv-survey | recv-req | send-q (socket queue) | send-pipe (per-pipe queue) | send-ctx | send-req | send-fan
	be, fnp       bool   // options the site implements
	resizeOpt     string
	noClose       bool
}

var w18rid = []byte{0x80, 0, 0, 1}

func w18sites() []w18site {
	noh := func(uint32) []byte { return nil }
	ridh := func(uint32) []byte { return w18rid }
	routed := func(p uint32) []byte { return append(be32(p), w18rid...) }
	return []w18site{
		{"protocol/xpair", "socket", "RecvMsg", xpair.NewProtocol, []byte("hello"), noh, "recv", false, false, mangos.OptionReadQLen, false},
		{"protocol/xpair", "socket", "SendMsg", xpair.NewProtocol, nil, noh, "send-q", true, false, "", false},
		{"protocol/xpair1", "socket", "RecvMsg", xpair1.NewProtocol, []byte{0, 0, 0, 1, 'x'}, noh, "recv", false, false, mangos.OptionReadQLen, false},
		{"protocol/xpair1", "socket", "SendMsg", xpair1.NewProtocol, nil, func(uint32) []byte { return []byte{0, 0, 0, 0} }, "send-q", true, false, "", false},
		{"protocol/xreq", "socket", "RecvMsg", xreq.NewProtocol, append(append([]byte{}, w18rid...), 'x'), noh, "recv", false, false, mangos.OptionReadQLen, false},
		{"protocol/xreq", "socket", "SendMsg", xreq.NewProtocol, nil, ridh, "send-q", true, false, "", false},
		{"protocol/xrep", "socket", "RecvMsg", xrep.NewProtocol, append(append([]byte{}, w18rid...), 'x'), noh, "recv", false, false, mangos.OptionReadQLen, false},
		{"protocol/xrep", "socket", "SendMsg", xrep.NewProtocol, nil, routed, "send-pipe", true, false, "", true},
		{"protocol/xsub", "socket", "RecvMsg", xsub.NewProtocol, []byte("hello"), noh, "recv", false, false, mangos.OptionReadQLen, false},
		{"protocol/xpush", "socket", "SendMsg", xpush.NewProtocol, nil, noh, "send-q", true, true, "", false},
		{"protocol/xpull", "socket", "RecvMsg", xpull.NewProtocol, []byte("hello"), noh, "recv", false, false, mangos.OptionReadQLen, false},
		{"protocol/xsurveyor", "socket", "RecvMsg", xsurveyor.NewProtocol, append(append([]byte{}, w18rid...), 'x'), noh, "recv", false, false, mangos.OptionReadQLen, false},
		{"protocol/xrespondent", "socket", "RecvMsg", xrespondent.NewProtocol, append(append([]byte{}, w18rid...), 'x'), noh, "recv", false, false, mangos.OptionReadQLen, false},
		{"protocol/xrespondent", "socket", "SendMsg", xrespondent.NewProtocol, nil, routed, "send-pipe", true, false, "", true},
		{"protocol/xbus", "socket", "RecvMsg", xbus.NewProtocol, []byte("hello"), noh, "recv", false, false, mangos.OptionReadQLen, false},
		{"protocol/xstar", "socket", "RecvMsg", xstar.NewProtocol, []byte{0, 0, 0, 0, 'x'}, noh, "recv", false, false, mangos.OptionReadQLen, false},
		{"protocol/rep", "context", "RecvMsg", rep.NewProtocol, append(append([]byte{}, w18rid...), 'x'), noh, "recv", false, false, "", false},
		{"protocol/rep", "context", "SendMsg", rep.NewProtocol, append(append([]byte{}, w18rid...), 'x'), noh, "send-ctx", true, false, "", false},
		{"protocol/sub", "context", "RecvMsg", sub.NewProtocol, []byte("hello"), noh, "recv", false, false, mangos.OptionReadQLen, false},
		{"protocol/surveyor", "context", "RecvMsg", surveyor.NewProtocol, nil, noh, "recv-survey", false, false, "", false},
		{"protocol/respondent", "context", "RecvMsg", respondent.NewProtocol, append(append([]byte{}, w18rid...), 'x'), noh, "recv", false, false, mangos.OptionReadQLen, false},
		{"protocol/respondent", "context", "SendMsg", respondent.NewProtocol, append(append([]byte{}, w18rid...), 'x'), noh, "send-ctx", true, false, "", false},
		{"protocol/req", "context", "RecvMsg", req.NewProtocol, nil, noh, "recv-req", false, true, "", false},
		{"protocol/req", "context", "SendMsg", req.NewProtocol, nil, noh, "send-req", true, true, "", false},
		// sends that never block
		{"protocol/xpub", "socket", "SendMsg", xpub.NewProtocol, nil, noh, "send-fan", false, false, "", false},
		{"protocol/xbus", "socket", "SendMsg", xbus.NewProtocol, nil, noh, "send-fan", false, false, "", false},
		{"protocol/xstar", "socket", "SendMsg", xstar.NewProtocol, nil, func(uint32) []byte { return []byte{0, 0, 0, 0} }, "send-fan", false, false, "", false},
		{"protocol/xsurveyor", "socket", "SendMsg", xsurveyor.NewProtocol, nil, ridh, "send-fan", false, false, "", false},
		{"protocol/surveyor", "context", "SendMsg", surveyor.NewProtocol, nil, noh, "send-fan", false, false, "", false},
	}
}

type w18ev struct {
	at   int // ms after the call begins
	kind string
}

type w18scn struct {
	site    w18site
	expire  int
	be, fnp bool
	ready   bool
	peers   bool
	evs     []w18ev
	giveUp  int
	again   bool // after a Recv that timed out: Recv again, a message arrives while it waits
	inherit bool // the deadline is set on the socket before the context is opened (and not on the context)
}

func (s *w18scn) String() string {
	e := []string{}
	for _, x := range s.evs {
		e = append(e, fmt.Sprintf("%d:%s", x.at, x.kind))
	}
	return fmt.Sprintf("%s %s.%s expire=%d be=%v fnp=%v ready=%v peers=%v events=[%s]", s.site.pkg, s.site.recv, s.site.fn, s.expire, s.be, s.fnp, s.ready, s.peers, strings.Join(e, ","))
}

type w18res struct {
	scn     *w18scn
	out     string // ok | timeout | closed | nopeers | blocked | other:…
	elapsed int64
	evAt    []int64 // measured time (ms, before the action) of each event
	skipped string
	follow  string // outcome of the follow-up Recv (`again`)
}

func b2s(b bool) string {
	if b {
		return "1"
	}
	return "0"
}

func w18setDeadline(ctx mangos.ProtocolContext, proto mangos.ProtocolBase, fn string, d time.Duration) {
	name := mangos.OptionRecvDeadline
	if fn == "SendMsg" {
		name = mangos.OptionSendDeadline
	}
	if ctx.SetOption(name, d) != nil {
		_ = proto.SetOption(name, d)
	}
}

func w18setBool(ctx mangos.ProtocolContext, proto mangos.ProtocolBase, name string, v bool) {
	if ctx.SetOption(name, v) != nil {
		_ = proto.SetOption(name, v)
	}
}

// run one scenario against a fresh protocol instance
func w18run(sc *w18scn) *w18res {
	res := &w18res{scn: sc}
	st := sc.site
	proto := st.newp()
	net := &vp.Net{}
	var pipe *vp.VPipe
	var ctx mangos.ProtocolContext = proto
	defer func() {
		_ = proto.Close()
		if pipe != nil {
			for pipe.Release(mangos.ErrClosed) {
			}
			_ = pipe.Close()
		}
	}()
	if st.recv == "context" {
		if sc.inherit {
			name := mangos.OptionRecvDeadline
			if st.fn == "SendMsg" {
				name = mangos.OptionSendDeadline
			}
			if proto.SetOption(name, time.Duration(sc.expire)*time.Millisecond) != nil {
				res.skipped = "the socket does not take the deadline option"
				return res
			}
		}
		c, err := proto.OpenContext()
		if err != nil {
			res.skipped = "no context"
			return res
		}
		ctx = c
	}
	if st.fam == "send-q" || st.fam == "send-pipe" || st.fam == "send-ctx" || st.fam == "send-fan" {
		_ = proto.SetOption(mangos.OptionWriteQLen, 1)
	}
	if st.pkg == "protocol/sub" {
		_ = ctx.SetOption(mangos.OptionSubscribe, []byte{})
	}
	if st.pkg == "protocol/surveyor" {
		_ = ctx.SetOption(mangos.OptionSurveyTime, 5*time.Second)
	}
	attach := func(id uint32, hold bool) *vp.VPipe {
		p := vp.NewVPipe(id, proto, net)
		p.Hold = hold
		if p.Attach() != nil {
			return nil
		}
		return p
	}
	settle := func() { time.Sleep(3 * time.Millisecond) }
	var hdr, body []byte
	makeReady := func() {}
	switch st.fam {
	case "recv":
		if sc.peers {
			pipe = attach(1, false)
		}
		if sc.ready && pipe != nil {
			pipe.Inject(st.inbound)
			settle()
		}
		makeReady = func() {
			if pipe != nil {
				pipe.Inject(st.inbound)
			}
		}
	case "recv-survey", "recv-req":
		// an outstanding survey / request is needed for Recv to wait at all
		pipe = attach(1, false)
		c := vp.GoSend(ctx, nil, []byte("q"))
		if !c.Wait(time.Second) || c.Err != nil {
			res.skipped = "priming send failed"
			return res
		}
		settle()
		var id []byte
		for _, t := range net.TakeTx() {
			if len(t.Header) >= 4 {
				id = t.Header[len(t.Header)-4:]
			}
		}
		if id == nil {
			res.skipped = "priming send not transmitted"
			return res
		}
		reply := append(append([]byte{}, id...), 'r')
		if sc.ready {
			pipe.Inject(reply)
			settle()
		}
		if !sc.peers {
			p := pipe
			pipe = nil
			_ = p.Close()
			settle()
		}
		makeReady = func() {
			if pipe != nil {
				pipe.Inject(reply)
			}
		}
	case "send-q", "send-pipe":
		if sc.peers {
			pipe = attach(1, true)
		}
		hdr, body = st.hdr(1), []byte("m")
		if !sc.ready {
			// fill: probe with a short deadline until a send times out
			if pipe == nil && st.fam == "send-pipe" {
				res.skipped = "routed send without a pipe is dropped, cannot block"
				return res
			}
			_ = proto.SetOption(mangos.OptionSendDeadline, 15*time.Millisecond)
			full := false
			for i := 0; i < 12 && !full; i++ {
				c := vp.GoSend(proto, hdr, body)
				if !c.Wait(time.Second) {
					res.skipped = "probe hung"
					return res
				}
				if c.Err == mangos.ErrSendTimeout {
					c.Msg.Free()
					// a probe can also time out because the sender goroutine that is about to take a message out of the
					// queue has not run yet (a slow machine): the queue is full only if, with everything settled, the
					// next probe times out as well
					time.Sleep(25 * time.Millisecond) // (the scenarios of this check run in parallel: no global quiescence to wait for)
					c2 := vp.GoSend(proto, hdr, body)
					if !c2.Wait(time.Second) {
						res.skipped = "probe hung"
						return res
					}
					if c2.Err == mangos.ErrSendTimeout {
						c2.Msg.Free()
						full = true
					} else if c2.Err != nil {
						res.skipped = "probe: " + vp.ErrName(c2.Err)
						return res
					}
				} else if c.Err != nil {
					res.skipped = "probe: " + vp.ErrName(c.Err)
					return res
				}
			}
			if !full {
				res.skipped = "queue never filled"
				return res
			}
			_ = proto.SetOption(mangos.OptionSendDeadline, time.Duration(0))
		}
		makeReady = func() {
			if pipe != nil {
				pipe.Release(nil)
			}
		}
	case "send-ctx":
		pipe = attach(1, true)
		recvOne := func(c mangos.ProtocolContext) bool {
			pipe.Inject(st.inbound)
			r := vp.GoRecv(c)
			if !r.Wait(time.Second) || r.Err != nil {
				return false
			}
			r.Msg.Free()
			return true
		}
		if !sc.ready {
			// rep / respondent contexts refuse a zero deadline, so the probing is done on a context of its own
			pctx, _ := proto.OpenContext()
			_ = pctx.SetOption(mangos.OptionSendDeadline, 15*time.Millisecond)
			full := false
			for i := 0; i < 12 && !full; i++ {
				if !recvOne(pctx) {
					res.skipped = "probe recv failed"
					return res
				}
				c := vp.GoSend(pctx, nil, []byte("a"))
				if !c.Wait(time.Second) {
					res.skipped = "probe hung"
					return res
				}
				if c.Err == mangos.ErrSendTimeout {
					c.Msg.Free()
					// the same second look as for the socket-level sends
					time.Sleep(25 * time.Millisecond)
					if !recvOne(pctx) {
						res.skipped = "probe recv failed"
						return res
					}
					c2 := vp.GoSend(pctx, nil, []byte("a"))
					if !c2.Wait(time.Second) {
						res.skipped = "probe hung"
						return res
					}
					if c2.Err == mangos.ErrSendTimeout {
						c2.Msg.Free()
						full = true
					} else if c2.Err != nil {
						res.skipped = "probe: " + vp.ErrName(c2.Err)
						return res
					}
				} else if c.Err != nil {
					res.skipped = "probe: " + vp.ErrName(c.Err)
					return res
				}
			}
			if !full {
				res.skipped = "queue never filled"
				return res
			}
		}
		if !recvOne(ctx) {
			res.skipped = "request not received"
			return res
		}
		body = []byte("a")
		makeReady = func() { pipe.Release(nil) }
	case "send-req":
		if sc.peers {
			pipe = attach(1, true)
			if !sc.ready {
				// another context's request occupies the only pipe
				o, _ := proto.OpenContext()
				c := vp.GoSend(o, nil, []byte("o"))
				if !c.Wait(time.Second) || c.Err != nil {
					res.skipped = "occupying send failed"
					return res
				}
				settle()
			}
		} else if sc.ready {
			res.skipped = "a request cannot be sent at once without a peer"
			return res
		}
		body = []byte("q")
		makeReady = func() {
			if pipe != nil {
				pipe.Release(nil)
			}
		}
	case "send-fan":
		// two subscribers, both stalled with full queues: the send must still return at once
		pipe = attach(1, true)
		p2 := attach(2, true)
		defer func() {
			if p2 != nil {
				for p2.Release(mangos.ErrClosed) {
				}
				_ = p2.Close()
			}
		}()
		hdr, body = st.hdr(1), []byte("m")
		for i := 0; i < 4; i++ {
			c := vp.GoSend(ctx, hdr, body)
			if !c.Wait(time.Second) {
				res.out, res.elapsed = "blocked", 1000
				return res
			}
		}
	}
	// configuration under test
	if !sc.inherit {
		w18setDeadline(ctx, proto, st.fn, time.Duration(sc.expire)*time.Millisecond)
	}
	if st.be {
		w18setBool(ctx, proto, mangos.OptionBestEffort, sc.be)
	}
	if st.fnp {
		w18setBool(ctx, proto, mangos.OptionFailNoPeers, sc.fnp)
	}
	nresize := 3
	t0 := time.Now()
	var call *vp.Call
	if st.fn == "SendMsg" {
		call = vp.GoSend(ctx, hdr, body)
	} else {
		call = vp.GoRecv(ctx)
	}
	for i, ev := range sc.evs {
		if call.Finished() {
			// the call is over: the remaining events cannot matter
			for _, e := range sc.evs[i:] {
				res.evAt = append(res.evAt, int64(e.at))
			}
			break
		}
		due := t0.Add(time.Duration(ev.at) * time.Millisecond)
		if d := time.Until(due); d > 0 {
			time.Sleep(d)
		}
		res.evAt = append(res.evAt, time.Since(t0).Milliseconds())
		switch ev.kind {
		case "ready":
			makeReady()
		case "resize":
			nresize++
			if st.resizeOpt != "" {
				if ctx.SetOption(st.resizeOpt, nresize) != nil {
					_ = proto.SetOption(st.resizeOpt, nresize)
				}
			}
		case "nopeers":
			if pipe != nil {
				p := pipe
				pipe = nil
				for p.Release(mangos.ErrClosed) {
				}
				_ = p.Close()
			}
		case "closed":
			if st.recv == "context" {
				_ = ctx.Close()
			} else {
				_ = proto.Close()
			}
		}
	}
	left := time.Until(t0.Add(time.Duration(sc.giveUp) * time.Millisecond))
	if left < 0 {
		left = 0
	}
	if call.Wait(left) {
		res.elapsed = call.End.Sub(t0).Milliseconds()
		switch call.Err {
		case nil:
			res.out = "ok"
			if call.Kind == "recv" {
				call.Msg.Free()
			}
		case mangos.ErrSendTimeout, mangos.ErrRecvTimeout:
			res.out = "timeout"
		case mangos.ErrClosed:
			res.out = "closed"
		case mangos.ErrNoPeers:
			res.out = "nopeers"
		default:
			res.out = "other:" + vp.ErrName(call.Err)
		}
		if call.Err != nil && (call.Err == mangos.ErrSendTimeout) != (st.fn == "SendMsg") && res.out == "timeout" {
			res.out = "other:wrong-timeout-error"
		}
	} else {
		res.out, res.elapsed = "blocked", time.Since(t0).Milliseconds()
	}
	if sc.again && res.out == "timeout" && st.fn == "RecvMsg" {
		c2 := vp.GoRecv(ctx)
		time.Sleep(20 * time.Millisecond)
		makeReady()
		if c2.Wait(400 * time.Millisecond) {
			if c2.Err == nil {
				res.follow = "ok"
				c2.Msg.Free()
			} else {
				res.follow = vp.ErrName(c2.Err)
			}
		} else {
			res.follow = "blocked"
		}
	}
	return res
}

func w18scenarios(c *Ctx, st w18site) []*w18scn {
	var out []*w18scn
	add := func(expire int, be, fnp, ready, peers bool, giveUp int, evs ...w18ev) {
		out = append(out, &w18scn{site: st, expire: expire, be: be, fnp: fnp, ready: ready, peers: peers, evs: evs, giveUp: giveUp})
	}
	if st.fam == "send-fan" {
		add(0, false, false, true, true, 300)
		add(60, false, false, true, true, 300)
		return out
	}
	if st.fn == "RecvMsg" && st.fam == "recv" {
		// a Recv that timed out leaves the socket / context as it was: the next Recv waits again and gets what arrives
		out = append(out, &w18scn{site: st, expire: 60, peers: true, giveUp: 460, again: true})
	}
	if st.recv == "context" && (st.fam == "recv" || st.fam == "recv-survey" || st.fam == "recv-req") && st.pkg != "protocol/rep" {
		// (REP contexts take over nothing from the socket: Obl.CtxInherit lists what each pattern's OpenContext copies)
		// a context opened after the socket's deadline was set waits for that deadline
		out = append(out, &w18scn{site: st, expire: 70, peers: true, giveUp: 470, inherit: true})
	}
	canClose := !st.noClose
	// a reply's destination pipe going away ends the send by design (dropped or ErrClosed): not a C18 matter
	leaveOK := st.fam != "send-pipe" && st.fam != "send-ctx"
	for _, d := range []int{60, 130} {
		add(d, false, false, false, true, d+400)                        // plain timeout
		add(d, false, false, false, true, d+400, w18ev{d / 2, "ready"}) // satisfied before the deadline
		add(d, false, false, true, true, d+400)                         // satisfiable at once
		if st.resizeOpt != "" {
			// resizes while blocked must not postpone the deadline
			var evs []w18ev
			for t := d * 6 / 10; t < d+w18slack+2*d; t += d * 6 / 10 {
				evs = append(evs, w18ev{t, "resize"})
			}
			add(d, false, false, false, true, d+w18slack+3*d+200, evs...)
			add(d, false, false, false, true, d+400, w18ev{d / 3, "resize"}, w18ev{d * 2 / 3, "ready"})
		}
		if canClose {
			add(d, false, false, false, true, d+400, w18ev{d / 2, "closed"})
		}
		if leaveOK {
			add(d, false, false, false, true, d+400, w18ev{d / 2, "nopeers"}) // a leaving peer alone ends nothing
		}
	}
	add(1, false, false, true, true, 300)  // a tiny deadline does not fail a call that can complete
	add(0, false, false, false, true, 220) // no deadline: waits
	add(0, false, false, false, true, 400, w18ev{120, "ready"})
	if st.resizeOpt != "" {
		add(0, false, false, false, true, 260, w18ev{50, "resize"}, w18ev{100, "resize"})
	}
	if st.be {
		add(0, true, false, false, true, 300)
		add(80, true, false, false, true, 300)
		add(600, true, false, false, true, 900) // a long deadline must not turn best-effort into a wait (beyond any scheduling slack)
		add(0, true, false, true, true, 300)
		add(0, true, false, false, false, 300)
	}
	if st.fnp {
		add(0, false, true, false, false, 300)
		add(90, false, true, false, false, 300)
		add(0, false, true, false, true, 400, w18ev{70, "nopeers"})
		add(200, false, true, false, true, 500, w18ev{70, "nopeers"})
		add(0, false, false, false, true, 260, w18ev{70, "nopeers"})
		add(0, true, true, false, false, 300)
		add(0, false, true, true, true, 300)
	} else if leaveOK {
		add(0, false, false, false, false, 220) // no peers and no fail-no-peers: waits
	}
	if c.Thorough() {
		kinds := []string{"ready", "resize", "nopeers", "resize", "resize"}
		if canClose {
			kinds = append(kinds, "closed")
		}
		for i := 0; i < 24; i++ {
			d := c.R.Pick(0, 40, 90, 170, 260)
			n := c.R.Intn(4)
			var evs []w18ev
			t := 0
			peers := c.R.Intn(6) != 0 || st.fam == "send-pipe" || st.fam == "send-ctx"
			gone := !peers
			for j := 0; j < n; j++ {
				t += 30 + c.R.Intn(120)
				k := kinds[c.R.Intn(len(kinds))]
				if (k == "ready" && gone) || (k == "nopeers" && !leaveOK) {
					k = "resize"
				}
				if k == "nopeers" {
					gone = true
				}
				evs = append(evs, w18ev{t, k})
			}
			add(d, st.be && c.R.Intn(4) == 0, st.fnp && c.R.Intn(2) == 0, peers && c.R.Intn(4) == 0, peers, t+d+400, evs...)
		}
	}
	return out
}

func init() {
	props["C18"] = func(c *Ctx) {
		c.Rep.Rule = "one case per (call site, deadline class, best-effort, fail-no-peers, starting state, event kinds, outcome); event times and elapsed times abstracted"
		var all []*w18scn
		for _, st := range w18sites() {
			all = append(all, w18scenarios(c, st)...)
		}
		results := make([]*w18res, len(all))
		sem := make(chan struct{}, 24)
		var wg sync.WaitGroup
		for i := range all {
			wg.Add(1)
			sem <- struct{}{}
			go func(i int) {
				defer wg.Done()
				defer func() { <-sem }()
				results[i] = w18run(all[i])
			}(i)
		}
		wg.Wait()
		// REQ is the one protocol whose blocked calls share state (a context's request): a Recv deadline expiring
		// while a Send on the same context is still waiting for a pipe
		for _, busy := range []bool{false, true} {
			runReqCrossDeadline(c, 150, 40, busy)
			runReqCrossDeadline(c, 40, 150, busy)
			runReqCrossDeadline(c, 0, 40, busy)
		}
		runReqSendDeadlineLeavesNothing(c, 40, 400)
		runConcurrentDeadlines(c)
		runPushFailNoPeersToggle(c)
		runReqSendDeadlineLeavesNothing(c, 60, 0)
		skipped := map[string]int{}
		for _, r := range results {
			sc := r.scn
			if r.skipped != "" {
				skipped[sc.site.pkg+" "+sc.site.fn+": "+r.skipped]++
				continue
			}
			// events too close to a possible deadline instant are races the comparison cannot decide: skip
			racy := false
			arms := []int64{0}
			for i, e := range sc.evs {
				if e.kind == "resize" {
					arms = append(arms, r.evAt[i])
				}
			}
			if sc.expire > 0 {
				for _, t := range r.evAt {
					for _, a := range arms {
						if d := t - (a + int64(sc.expire)); d > -12 && d < 12 {
							racy = true
						}
					}
				}
			}
			if racy {
				skipped["event within 12 ms of a deadline instant"]++
				continue
			}
			evs, kinds := []string{}, []string{}
			for i, e := range sc.evs {
				evs = append(evs, fmt.Sprintf("%d:%s", r.evAt[i], e.kind))
				kinds = append(kinds, e.kind)
			}
			evstr := "-"
			if len(evs) > 0 {
				evstr = strings.Join(evs, ",")
			}
			obs := r.out
			if r.out != "blocked" {
				obs = fmt.Sprintf("%s %d", r.out, r.elapsed)
			}
			dcls := "none"
			if sc.expire > 0 {
				dcls = "set"
			}
			class := fmt.Sprintf("w.run %s %s.%s d=%s be=%v fnp=%v ready=%v peers=%v [%s] -> %s", sc.site.pkg, sc.site.recv, sc.site.fn, dcls, sc.be, sc.fnp, sc.ready, sc.peers, strings.Join(kinds, ","), r.out)
			c.Class(class, len(sc.evs) > 0 || sc.expire > 0 || sc.be || sc.fnp)
			c.T.Line(class, fmt.Sprintf("w.run %s %s %s %d %s %s %s %s %d %s", sc.site.pkg, sc.site.recv, sc.site.fn, sc.expire, b2s(sc.be), b2s(sc.fnp), b2s(sc.ready), b2s(sc.peers), sc.giveUp, evstr), obs)

			// ---- oracles on the observation itself
			replay := map[string]interface{}{"scenario": sc.String(), "event_times_ms": r.evAt, "outcome": r.out, "elapsed_ms": r.elapsed,
				"how": "cmd/corr/c18.go w18run: virtual pipes, real " + sc.site.pkg + " " + sc.site.recv + "." + sc.site.fn}
			beOn := sc.be && sc.site.be
			fnpOn := sc.fnp && sc.site.fnp
			if strings.HasPrefix(r.out, "other:") {
				c.Violate(fmt.Sprintf("%s %s.%s returned %s", sc.site.pkg, sc.site.recv, sc.site.fn, r.out), replay)
			}
			if sc.again && r.out == "timeout" && r.follow != "ok" {
				c.Violate(fmt.Sprintf("%s %s.%s: after a Recv had timed out, the next Recv (a message arrived 20 ms into it) ended with %q — a timeout must leave the object as it was", sc.site.pkg, sc.site.recv, sc.site.fn, r.follow), replay)
			}
			if r.out == "timeout" && (sc.expire == 0 || r.elapsed < int64(sc.expire)) {
				c.Violate(fmt.Sprintf("%s %s.%s reported a timeout after %d ms with deadline %d ms", sc.site.pkg, sc.site.recv, sc.site.fn, r.elapsed, sc.expire), replay)
			}
			if r.out == "timeout" && (beOn || sc.ready) {
				c.Violate(fmt.Sprintf("%s %s.%s timed out although it could complete at once (ready=%v best-effort=%v)", sc.site.pkg, sc.site.recv, sc.site.fn, sc.ready, beOn), replay)
			}
			if sc.expire > 0 && !beOn && (r.out == "blocked" || r.elapsed > int64(sc.expire+w18slack)) && !(fnpOn && !sc.peers) {
				c.Violate(fmt.Sprintf("%s %s.%s with deadline %d ms was still blocked after %d ms (queue resized while it waited: %v)", sc.site.pkg, sc.site.recv, sc.site.fn, sc.expire, r.elapsed, strings.Contains(evstr, "resize")), replay)
			}
			if sc.ready && !(fnpOn && !sc.peers) && (r.out != "ok" || r.elapsed > w18slack) {
				c.Violate(fmt.Sprintf("%s %s.%s could complete at once but returned %s after %d ms", sc.site.pkg, sc.site.recv, sc.site.fn, r.out, r.elapsed), replay)
			}
			if beOn && (r.out == "blocked" || r.elapsed > w18slack) {
				c.Violate(fmt.Sprintf("%s %s.%s best-effort send blocked for %d ms", sc.site.pkg, sc.site.recv, sc.site.fn, r.elapsed), replay)
			}
			if fnpOn && !sc.peers && (r.out != "nopeers" || r.elapsed > w18slack) {
				c.Violate(fmt.Sprintf("%s %s.%s with fail-no-peers and no peer returned %s after %d ms", sc.site.pkg, sc.site.recv, sc.site.fn, r.out, r.elapsed), replay)
			}
			if fnpOn && sc.peers && !sc.ready && !beOn {
				// the last peer leaves during the wait
				for i, e := range sc.evs {
					if e.kind != "nopeers" {
						continue
					}
					before := false
					for j := 0; j < i; j++ {
						if sc.evs[j].kind == "ready" || sc.evs[j].kind == "closed" {
							before = true
						}
					}
					tl := r.evAt[i]
					if before || (sc.expire > 0 && tl > int64(sc.expire)-12) {
						continue
					}
					if r.out != "nopeers" || r.elapsed > tl+w18slack {
						c.Violate(fmt.Sprintf("%s %s.%s with fail-no-peers: last peer left at %d ms, call returned %s at %d ms", sc.site.pkg, sc.site.recv, sc.site.fn, tl, r.out, r.elapsed), replay)
					}
				}
			}
			if sc.expire == 0 && !beOn && !sc.ready && r.out != "blocked" {
				cause := fnpOn && !sc.peers
				for _, e := range sc.evs {
					if e.kind == "ready" || e.kind == "closed" || (e.kind == "nopeers" && fnpOn) {
						cause = true
					}
				}
				if !cause {
					c.Violate(fmt.Sprintf("%s %s.%s without a deadline returned %s after %d ms although nothing happened", sc.site.pkg, sc.site.recv, sc.site.fn, r.out, r.elapsed), replay)
				}
			}
		}
		ks := make([]string, 0, len(skipped))
		for k, n := range skipped {
			ks = append(ks, fmt.Sprintf("%s x%d", k, n))
		}
		sort.Strings(ks)
		c.Rep.Notes = append(c.Rep.Notes, fmt.Sprintf("%d scenarios over %d call sites; skipped: %s", len(all), len(w18sites()), strings.Join(ks, "; ")))
	}
}

// Several goroutines blocked in the same kind of call on one socket, each with the socket's deadline, nothing arriving:
// every one of them has its own deadline — each returns, with the time-out error no earlier than its deadline and no
// later than the slack after it, however the calls overlap (C18: "never hanging beyond the deadline"; C11: calls of
// different goroutines do not disturb one another).
func runConcurrentDeadlines(c *Ctx) {
	const dl = 80
	type tgt struct {
		site w18site
		send bool
	}
	var tgts []tgt
	for _, st := range w18sites() {
		switch st.fam {
		case "recv":
			tgts = append(tgts, tgt{st, false})
		case "send-q":
			tgts = append(tgts, tgt{st, true})
		}
	}
	type res struct {
		name    string
		i       int
		err     error
		elapsed time.Duration
		done    bool
	}
	var mu sync.Mutex
	var all []*res
	var wg sync.WaitGroup
	var socks []mangos.Socket
	for _, tg := range tgts {
		s := protocol.MakeSocket(tg.site.newp())
		socks = append(socks, s)
		name := tg.site.pkg + " " + tg.site.fn
		if tg.send {
			_ = s.SetOption(mangos.OptionSendDeadline, dl*time.Millisecond)
			_ = s.SetOption(mangos.OptionWriteQLen, 0)
		} else {
			_ = s.SetOption(mangos.OptionRecvDeadline, dl*time.Millisecond)
		}
		for i := 0; i < 3; i++ {
			r := &res{name: name, i: i}
			all = append(all, r)
			wg.Add(1)
			go func(tg tgt, s mangos.Socket, r *res, i int) {
				defer wg.Done()
				time.Sleep(time.Duration(i*17) * time.Millisecond)
				t0 := time.Now()
				var err error
				if tg.send {
					m := mangos.NewMessage(8)
					m.Header = append(m.Header, tg.site.hdr(1)...)
					m.Body = append(m.Body, 'x')
					err = s.SendMsg(m)
					if err != nil {
						m.Free()
					}
				} else {
					var m *mangos.Message
					m, err = s.RecvMsg()
					if err == nil {
						m.Free()
					}
				}
				mu.Lock()
				r.err, r.elapsed, r.done = err, time.Since(t0), true
				mu.Unlock()
			}(tg, s, r, i)
		}
	}
	finished := make(chan struct{})
	go func() { wg.Wait(); close(finished) }()
	select {
	case <-finished:
	case <-time.After((dl + w18slack + 3*17 + 400) * time.Millisecond):
	}
	mu.Lock()
	for _, r := range all {
		what := "Recv"
		if strings.HasSuffix(r.name, "SendMsg") {
			what = "Send"
		}
		switch {
		case !r.done:
			c.Violate(fmt.Sprintf("%s: with three goroutines blocked in %s on one socket (deadline %d ms each, started 17 ms apart, nothing arriving), call %d had not returned %d ms after its deadline", r.name, what, dl, r.i, w18slack+400),
				map[string]interface{}{"site": r.name, "deadline_ms": dl, "concurrent_calls": 3})
		case (r.err == mangos.ErrRecvTimeout || r.err == mangos.ErrSendTimeout) && r.elapsed < (dl-1)*time.Millisecond:
			c.Violate(fmt.Sprintf("%s: concurrent call %d timed out after %v, before its %d ms deadline", r.name, r.i, r.elapsed, dl), nil)
		case r.err == nil && !strings.HasSuffix(r.name, "SendMsg"):
			c.Violate(fmt.Sprintf("%s: concurrent call %d returned a message although nothing was sent", r.name, r.i), nil)
		case r.elapsed > (dl+w18slack)*time.Millisecond:
			c.Violate(fmt.Sprintf("%s: concurrent call %d returned only after %v (deadline %d ms)", r.name, r.i, r.elapsed, dl), nil)
		}
		c.Class(fmt.Sprintf("concurrent deadlines %s call=%d returned=%v", r.name, r.i, r.done), true)
	}
	mu.Unlock()
	for _, s := range socks {
		_ = s.Close()
	}
}
