package main

// pattern-level hostile bodies (C16): every protocol's receive path gets bodies of length 0..15
// built from the interesting words; nothing may panic or close the pipe's socket, nothing malformed may be
// delivered, and a well-formed message afterwards must still get through (the sentinel).

import (
	"bytes"
	"encoding/binary"
	"fmt"
	"go.nanomsg.org/mangos/v3/protocol/sub"
	"time"

	"go.nanomsg.org/mangos/v3"
	"go.nanomsg.org/mangos/v3/protocol/bus"
	"go.nanomsg.org/mangos/v3/protocol/pair"
	"go.nanomsg.org/mangos/v3/protocol/pub"
	"go.nanomsg.org/mangos/v3/protocol/pull"
	"go.nanomsg.org/mangos/v3/protocol/push"
	"go.nanomsg.org/mangos/v3/protocol/xbus"
	"go.nanomsg.org/mangos/v3/protocol/xpair"
	"go.nanomsg.org/mangos/v3/protocol/xpub"
	"go.nanomsg.org/mangos/v3/protocol/xpull"
	"go.nanomsg.org/mangos/v3/protocol/xpush"
	"go.nanomsg.org/mangos/v3/protocol/xreq"
	"go.nanomsg.org/mangos/v3/protocol/xsub"
	"go.nanomsg.org/mangos/v3/protocol/xsurveyor"
	"verifharness/vp"
)

type parseSite struct {
	name string
	mk   func() mangos.ProtocolBase
	kind string // plain | hdr4 | bus | buscooked | sink
}

var parseSites = []parseSite{
	{"xpair", xpair.NewProtocol, "plain"}, {"pair", pair.NewProtocol, "plain"},
	{"xpull", xpull.NewProtocol, "plain"}, {"pull", pull.NewProtocol, "plain"},
	{"xsub", xsub.NewProtocol, "plain"},
	{"xreq", xreq.NewProtocol, "hdr4"}, {"xsurveyor", xsurveyor.NewProtocol, "hdr4"},
	{"xbus", xbus.NewProtocol, "bus"}, {"bus", bus.NewProtocol, "buscooked"},
	{"xpub", xpub.NewProtocol, "sink"}, {"pub", pub.NewProtocol, "sink"},
	{"xpush", xpush.NewProtocol, "sink"}, {"push", push.NewProtocol, "sink"},
}

func hostileBodies(c *Ctx, n int) [][]byte {
	words := []uint32{0, 0x80000000, 0x7fffffff, 0xffffffff, 1, 0xff, 0x80000001, 0x01000000}
	var all [][]byte
	for nw := 0; nw <= 3; nw++ {
		idx := make([]int, nw)
		for {
			var b []byte
			for _, i := range idx {
				w := make([]byte, 4)
				binary.BigEndian.PutUint32(w, words[i])
				b = append(b, w...)
			}
			for tail := 0; tail <= 3; tail++ {
				all = append(all, append(append([]byte{}, b...), make([]byte, tail)...))
				if tail > 0 {
					// a truncated last word that begins like a request id (top bit set), and one of all ones
					all = append(all, append(append([]byte{}, b...), []byte{0x80, 0, 0}[:tail]...))
					all = append(all, append(append([]byte{}, b...), []byte{0xff, 0xff, 0xff}[:tail]...))
				}
			}
			k := nw - 1
			for k >= 0 {
				idx[k]++
				if idx[k] < len(words) {
					break
				}
				idx[k] = 0
				k--
			}
			if k < 0 {
				break
			}
		}
	}
	if n <= 0 || n >= len(all) {
		return all
	}
	// always the short ones, then a seeded sample
	out := append([][]byte{}, all[:4+8*4]...)
	for len(out) < n {
		out = append(out, all[c.R.Intn(len(all))])
	}
	return out
}

func protoHostile(c *Ctx) {
	n := 50
	if c.Thorough() {
		n = 0
	}
	bodies := hostileBodies(c, n)
	for _, s := range parseSites {
		proto := s.mk()
		net := &vp.Net{}
		p := vp.NewVPipe(0x0000a1b2, proto, net)
		if err := p.Attach(); err != nil {
			c.Violate(s.name+": AddPipe failed: "+err.Error(), nil)
			continue
		}
		if s.name == "xsub" {
			// raw sub has no filtering
		}
		vp.Quiesce()
		for _, body := range bodies {
			var call *vp.Call
			if s.kind != "sink" {
				call = vp.GoRecv(proto)
				vp.Quiesce()
			}
			p.Inject(body)
			if !vp.Quiesce() {
				c.Violate(fmt.Sprintf("%s: no quiescence after body %x", s.name, body), map[string]interface{}{"proto": s.name, "body": vp.Hex(body)})
				break
			}
			obs := "drop"
			if s.kind == "sink" {
				if p.IsClosed() {
					c.Violate(fmt.Sprintf("%s: received body %x closed the connection", s.name, body), map[string]interface{}{"proto": s.name, "body": vp.Hex(body)})
					break
				}
			} else if call.Finished() {
				if call.Err != nil {
					c.Violate(fmt.Sprintf("%s: Recv failed with %v after body %x", s.name, call.Err, body), map[string]interface{}{"proto": s.name, "body": vp.Hex(body)})
					break
				}
				obs = vp.Hex(call.Msg.Header) + " " + vp.Hex(call.Msg.Body)
				call.Msg.Free()
			} else {
				// dropped: release the Recv with a well-formed message
				p.Inject([]byte{0x80, 0, 0, 9, 'S'})
				vp.Quiesce()
				if !call.Wait(time.Second) || call.Err != nil {
					c.Violate(fmt.Sprintf("%s: after hostile body %x a well-formed message no longer gets through", s.name, body), map[string]interface{}{"proto": s.name, "body": vp.Hex(body)})
					break
				}
				call.Msg.Free()
			}
			kind := s.kind
			lhsKind := kind
			if kind == "buscooked" {
				lhsKind = "plain"
			}
			class := fmt.Sprintf("parse %s len=%d deliv=%v", s.name, len(body), obs != "drop")
			c.Class(class, true)
			c.T.Line(class, fmt.Sprintf("parse.%s %d %s", lhsKind, p.Id, vp.Hex(body)), obs)
		}
		_ = proto.Close()
		_ = p.Close()
	}
	// hop-counting receivers with the same catalogue (model: hop.*)
	for _, s := range hopSites {
		rig, err := newHopRig(s, 3)
		if err != nil {
			c.Violate(s.name+": "+err.Error(), nil)
			continue
		}
		for _, body := range bodies {
			deliv, h, b, note := rig.try(body)
			if note != "" {
				c.Violate(fmt.Sprintf("%s: hostile body %x: %s", s.name, body, note), map[string]interface{}{"proto": s.name, "body": vp.Hex(body)})
				break
			}
			obs := "drop"
			if deliv {
				obs = vp.Hex(h) + " " + vp.Hex(b)
			}
			class := fmt.Sprintf("parse %s len=%d deliv=%v", s.name, len(body), deliv)
			c.Class(class, true)
			if s.kind == "bt" {
				var hdr0 []byte
				if !s.cooked {
					hdr0 = be32(rig.pipe.Id)
				}
				c.T.Line(class, fmt.Sprintf("hop.%s 3 %s %s", s.name, vp.Hex(hdr0), vp.Hex(body)), obs)
			} else {
				c.T.Line(class, fmt.Sprintf("hop.%s 3 %s", s.name, vp.Hex(body)), obs)
			}
		}
		rig.close()
	}
}

// SUB: a message shorter than a subscribed topic matches nothing, whatever an earlier message left behind in a recycled
// buffer, and whatever the topic's length (also longer than the buffer the short message lives in) — "messages too short
// for the pattern's header … nothing is delivered beyond what a well-formed in-limit message dictates"
func subShortBodies(c *Ctx) {
	for _, topic := range [][]byte{[]byte("ABCDEFGH"), bytes.Repeat([]byte{'T'}, 200), bytes.Repeat([]byte{'L'}, 5000)} {
		proto := sub.NewProtocol()
		_ = proto.SetOption(mangos.OptionSubscribe, topic)
		_ = proto.SetOption(mangos.OptionRecvDeadline, 300*time.Millisecond)
		net := &vp.Net{}
		p := vp.NewVPipe(0x0000c3d4, proto, net)
		if p.Attach() != nil {
			continue
		}
		vp.Quiesce()
		full := append(append([]byte{}, topic...), '!', '1')
		// matching messages pass through (and their buffers return to the pool with the topic's bytes in them)
		for i := 0; i < 3; i++ {
			p.Inject(full)
			k := vp.GoRecv(proto)
			if !k.Wait(time.Second) || k.Err != nil || !bytes.Equal(k.Msg.Body, full) {
				c.Violate(fmt.Sprintf("sub: a message beginning with the %d-byte subscribed topic was not delivered", len(topic)), nil)
				break
			}
			k.Msg.Free()
		}
		for cut := 0; cut < len(topic); cut += 1 + len(topic)/7 {
			short := append([]byte{}, topic[:cut]...)
			p.Inject(short)
			vp.Quiesce()
			p.Inject(full) // the sentinel that must be the next thing received
			k := vp.GoRecv(proto)
			ok := k.Wait(time.Second) && k.Err == nil
			obs := "none"
			if ok {
				obs = vp.Hex(k.Msg.Body)
				if len(obs) > 40 {
					obs = obs[:40]
				}
			}
			class := fmt.Sprintf("sub short-body topic=%d cut=%d", len(topic), cut)
			c.Class(class, true)
			if !ok || !bytes.Equal(k.Msg.Body, full) {
				c.Violate(fmt.Sprintf("sub: subscribed to a %d-byte topic, a %d-byte message (a proper prefix of the topic) arrived: the next Recv returned %s instead of the matching message that followed", len(topic), cut, obs),
					map[string]interface{}{"topic_len": len(topic), "body": vp.Hex(short)})
				if ok {
					k.Msg.Free()
				}
				break
			}
			k.Msg.Free()
		}
		_ = proto.Close()
		_ = p.Close()
	}
}
