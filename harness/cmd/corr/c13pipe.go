package main

// C13, last clause: Pipe.Address / Dialer / Listener and the pipe's read-only options (local and remote address, TLS
// state, peer credentials) describe the actual connection and the endpoint that created it.
//
// Real sockets over every transport, listening on a concrete and (where the transport has one) on a wildcard address.
// One connection is looked at from its two ends; every fact is one `po.check <transport> <variant> <fact>` trace line
// whose admissible observations are the table Model/PipeFacts.lean (theorems there: the two ends are mirror images,
// TLS state exactly on the TLS transports, credentials exactly on ipc).

import (
	"crypto/tls"
	"fmt"
	"net"
	"os"
	"strings"
	"sync"
	"time"

	"go.nanomsg.org/mangos/v3"
	"go.nanomsg.org/mangos/v3/protocol/pair"
)

type poVariant struct {
	name   string
	listen func(tr e2eTransport, i int) string
}

func poVariants(tr e2eTransport) []poVariant {
	vs := []poVariant{{"concrete", func(tr e2eTransport, i int) string { return tr.addr(i) }}}
	switch tr.name {
	case "tcp", "tls+tcp", "ws", "wss":
		vs = append(vs, poVariant{"wildcard", func(tr e2eTransport, i int) string { return strings.Replace(tr.addr(i), "127.0.0.1", "0.0.0.0", 1) }})
	}
	return vs
}

func addrStr(v interface{}, err error) string {
	if err != nil {
		return "absent"
	}
	if a, ok := v.(net.Addr); ok && a != nil {
		return a.Network() + "|" + a.String()
	}
	return fmt.Sprintf("?%T", v)
}

func isWildcard(s string) bool {
	return strings.Contains(s, "0.0.0.0") || strings.Contains(s, "[::]") || strings.HasSuffix(s, "|:0")
}

func runPipeFacts(c *Ctx) {
	initTLS()
	for ti, tr := range e2eTransports {
		for vi, v := range poVariants(tr) {
			a, _ := pair.NewSocket()
			b, _ := pair.NewSocket()
			var mu sync.Mutex
			var lp, dp mangos.Pipe
			a.SetPipeEventHook(func(ev mangos.PipeEvent, p mangos.Pipe) {
				if ev == mangos.PipeEventAttached {
					mu.Lock()
					lp = p
					mu.Unlock()
				}
			})
			b.SetPipeEventHook(func(ev mangos.PipeEvent, p mangos.Pipe) {
				if ev == mangos.PipeEventAttached {
					mu.Lock()
					dp = p
					mu.Unlock()
				}
			})
			lopts, dopts := map[string]interface{}{}, map[string]interface{}{}
			if tr.tls {
				lopts[mangos.OptionTLSConfig] = srvTLS
				dopts[mangos.OptionTLSConfig] = cliTLS
			}
			emit := func(fact, obs string) {
				obs = strings.ReplaceAll(obs, " ", "_")
				c.T.Line(fmt.Sprintf("po.check %s %s %s -> %s", tr.name, v.name, fact, obs), fmt.Sprintf("po.check %s %s %s", tr.name, v.name, fact), obs)
			}
			l, err := a.NewListener(v.listen(tr, 9700+ti*10+vi), lopts)
			if err == nil {
				err = l.Listen()
			}
			if err != nil {
				emit("connect", "listen:"+err.Error())
				_ = a.Close()
				_ = b.Close()
				continue
			}
			target := strings.Replace(l.Address(), "0.0.0.0", "127.0.0.1", 1)
			target = strings.Replace(target, "[::]", "127.0.0.1", 1)
			d, err := b.NewDialer(target, dopts)
			if err == nil {
				err = d.Dial()
			}
			if err != nil {
				emit("connect", "dial:"+err.Error())
				_ = a.Close()
				_ = b.Close()
				continue
			}
			for i := 0; i < 200; i++ {
				mu.Lock()
				ok := lp != nil && dp != nil
				mu.Unlock()
				if ok {
					break
				}
				time.Sleep(5 * time.Millisecond)
			}
			mu.Lock()
			lpp, dpp := lp, dp
			mu.Unlock()
			if lpp == nil || dpp == nil {
				emit("connect", "no-pipe")
				_ = a.Close()
				_ = b.Close()
				continue
			}
			emit("connect", "ok")
			b2s := func(x bool) string {
				if x {
					return "true"
				}
				return "false"
			}
			// the endpoint that created the pipe
			emit("creator-l", b2s(lpp.Listener() == l && lpp.Dialer() == nil))
			emit("creator-d", b2s(dpp.Dialer() == d && dpp.Listener() == nil))
			emit("address-l", b2s(lpp.Address() == l.Address()))
			emit("address-d", b2s(dpp.Address() == d.Address()))
			// the two ends of one connection are mirror images
			ll, lr := addrStr(lpp.GetOption(mangos.OptionLocalAddr)), addrStr(lpp.GetOption(mangos.OptionRemoteAddr))
			dl, dr := addrStr(dpp.GetOption(mangos.OptionLocalAddr)), addrStr(dpp.GetOption(mangos.OptionRemoteAddr))
			detail := fmt.Sprintf("listener side local=%s remote=%s; dialer side local=%s remote=%s", ll, lr, dl, dr)
			mir := func(x, y string) string {
				if x == "absent" || y == "absent" {
					return "absent"
				}
				return b2s(x == y)
			}
			emit("mirror-listener-local", mir(ll, dr))
			emit("mirror-dialer-local", mir(dl, lr))
			wild := "false"
			for _, s := range []string{ll, lr, dl, dr} {
				if s != "absent" && isWildcard(s) {
					wild = "true"
				}
			}
			emit("wildcard-reported", wild)
			if mir(ll, dr) == "false" || wild == "true" {
				c.Violate(fmt.Sprintf("pipe options over %s (%s listen address): the two ends of one connection do not describe the same connection: %s", tr.name, v.name, detail),
					map[string]interface{}{"transport": tr.name, "listen": v.listen(tr, 0), "dial": target, "observed": detail})
			}
			// TLS state exactly where TLS is spoken
			tlsOf := func(p mangos.Pipe) string {
				v, err := p.GetOption(mangos.OptionTLSConnState)
				if err != nil {
					return "absent"
				}
				if cs, ok := v.(tls.ConnectionState); ok && cs.HandshakeComplete {
					return "complete"
				}
				return fmt.Sprintf("?%T", v)
			}
			emit("tls-l", tlsOf(lpp))
			emit("tls-d", tlsOf(dpp))
			for side, p := range map[string]mangos.Pipe{"accepted (listener side)": lpp, "connecting (dialer side)": dpp} {
				if got := tlsOf(p); tr.tls && got != "complete" {
					det := got
					if v, err := p.GetOption(mangos.OptionTLSConnState); err == nil {
						if cs, ok := v.(tls.ConnectionState); ok {
							det = fmt.Sprintf("HandshakeComplete=%v Version=%#x CipherSuite=%#x peer certificates=%d", cs.HandshakeComplete, cs.Version, cs.CipherSuite, len(cs.PeerCertificates))
						}
					}
					c.Violate(fmt.Sprintf("pipe options over %s: the TLS state reported for the %s pipe of an established connection does not describe it: %s", tr.name, side, det),
						map[string]interface{}{"transport": tr.name, "listen": v.listen(tr, 0), "side": side, "observed": det})
				} else if !tr.tls && got != "absent" {
					c.Violate(fmt.Sprintf("pipe options over %s: a TLS state (%s) is reported for a connection that does not use TLS", tr.name, got), map[string]interface{}{"transport": tr.name})
				}
			}
			// peer credentials: this very process
			cred := func(p mangos.Pipe) string {
				pid, e1 := p.GetOption(mangos.OptionPeerPID)
				uid, e2 := p.GetOption(mangos.OptionPeerUID)
				gid, e3 := p.GetOption(mangos.OptionPeerGID)
				if e1 != nil && e2 != nil && e3 != nil {
					return "absent"
				}
				if e1 == nil && e2 == nil && e3 == nil && pid == os.Getpid() && uid == os.Getuid() && gid == os.Getgid() {
					return "self"
				}
				return fmt.Sprintf("pid=%v uid=%v gid=%v", pid, uid, gid)
			}
			emit("cred-l", cred(lpp))
			emit("cred-d", cred(dpp))
			_ = a.Close()
			_ = b.Close()
		}
	}
}
