// Package vp: building blocks of the correspondence harness (DESIGN 3.4):
// virtual protocol pipes, the goroutine-census quiescence barrier, a seeded PRNG,
// and the trace writer of the line protocol consumed by the Lean driver.
package vp

import (
	"bufio"
	"bytes"
	"encoding/hex"
	"fmt"
	"os"
	"regexp"
	"runtime"
	"sort"
	"strings"
	"sync"
	"time"

	"go.nanomsg.org/mangos/v3"
)

// ---------------------------------------------------------------- PRNG

type Rand struct{ s uint64 }

func NewRand(seed uint64) *Rand { return &Rand{s: seed*0x9E3779B97F4A7C15 + 0x1234567} }
func (r *Rand) U64() uint64 {
	r.s += 0x9E3779B97F4A7C15
	z := r.s
	z = (z ^ (z >> 30)) * 0xBF58476D1CE4E5B9
	z = (z ^ (z >> 27)) * 0x94D049BB133111EB
	return z ^ (z >> 31)
}
func (r *Rand) Intn(n int) int {
	if n <= 0 {
		return 0
	}
	return int(r.U64() % uint64(n))
}
func (r *Rand) Bytes(n int) []byte {
	b := make([]byte, n)
	for i := range b {
		b[i] = byte(r.U64())
	}
	return b
}
func (r *Rand) Pick(xs ...int) int { return xs[r.Intn(len(xs))] }

// ---------------------------------------------------------------- trace

type Trace struct {
	f     *os.File
	w     *bufio.Writer
	mu    sync.Mutex
	Lines int
	// distinct canonical cases (hash of the abstracted line)
	Distinct map[string]int
	Samples  []string
}

func NewTrace(path string) (*Trace, error) {
	f, err := os.Create(path)
	if err != nil {
		return nil, err
	}
	return &Trace{f: f, w: bufio.NewWriterSize(f, 1<<20), Distinct: map[string]int{}}, nil
}

// Line writes "<lhs> => <obs>"; class is the abstraction used to count distinct cases.
func (t *Trace) Line(class, lhs, obs string) {
	t.mu.Lock()
	defer t.mu.Unlock()
	fmt.Fprintf(t.w, "%s => %s\n", lhs, obs)
	t.Lines++
	if class != "" {
		t.Distinct[class]++
		if len(t.Samples) < 6 && t.Distinct[class] == 1 {
			s := lhs + " => " + obs
			if len(s) > 240 {
				s = s[:240] + "…"
			}
			t.Samples = append(t.Samples, s)
		}
	}
}

func (t *Trace) Comment(s string) {
	t.mu.Lock()
	defer t.mu.Unlock()
	fmt.Fprintf(t.w, "# %s\n", s)
}

func (t *Trace) Close() error {
	t.mu.Lock()
	defer t.mu.Unlock()
	if err := t.w.Flush(); err != nil {
		return err
	}
	return t.f.Close()
}

func Hex(b []byte) string {
	if len(b) == 0 {
		return "-"
	}
	return hex.EncodeToString(b)
}

// ---------------------------------------------------------------- quiescence

var hdrRe = regexp.MustCompile(`(?m)^goroutine (\d+) \[([^\],]+)`)

var parkedStates = map[string]bool{
	"chan receive": true, "chan send": true, "select": true, "sync.Cond.Wait": true,
	"semacquire": true, "sync.Mutex.Lock": true, "IO wait": true, "sync.WaitGroup.Wait": true,
	"chan receive (nil chan)": true, "chan send (nil chan)": true, "select (no cases)": true,
	"sync.RWMutex.RLock": true, "sync.RWMutex.Lock": true, "sleep": false, "finalizer wait": true,
	"GC assist wait": false, "syscall": true, "trace reader (blocked)": true, "debug call": true,
	"GC worker (idle)": true, "GC sweep wait": true, "GC scavenge wait": true, "force gc (idle)": true,
}

var stackBuf = make([]byte, 1<<20)
var stackMu sync.Mutex

func census() (string, bool) {
	stackMu.Lock()
	defer stackMu.Unlock()
	n := runtime.Stack(stackBuf, true)
	for n == len(stackBuf) {
		stackBuf = make([]byte, 2*len(stackBuf))
		n = runtime.Stack(stackBuf, true)
	}
	ms := hdrRe.FindAllSubmatch(stackBuf[:n], -1)
	var sb strings.Builder
	allParked := true
	for i, m := range ms {
		if i == 0 {
			continue // the caller itself (always first, "running")
		}
		st := string(m[2])
		if !parkedStates[st] {
			allParked = false
		}
		sb.Write(m[1])
		sb.WriteByte(':')
		sb.WriteString(st)
		sb.WriteByte(';')
	}
	return sb.String(), allParked
}

// LibGoroutines lists the goroutines (other than the caller) whose stack, including the "created by" line, has a
// frame inside the library: "<state> <first library frame>".
func LibGoroutines() []string {
	stackMu.Lock()
	defer stackMu.Unlock()
	n := runtime.Stack(stackBuf, true)
	for n == len(stackBuf) {
		stackBuf = make([]byte, 2*len(stackBuf))
		n = runtime.Stack(stackBuf, true)
	}
	var out []string
	for i, g := range strings.Split(string(stackBuf[:n]), "\n\n") {
		if i == 0 {
			continue
		}
		lines := strings.Split(g, "\n")
		state := ""
		if m := hdrRe.FindStringSubmatch(lines[0]); m != nil {
			state = m[2]
		}
		for _, l := range lines[1:] {
			if strings.Contains(l, "go.nanomsg.org/mangos/v3") && !strings.HasPrefix(l, "\t") {
				f := strings.TrimPrefix(l, "created by ")
				if j := strings.Index(f, "("); j > 0 && !strings.HasPrefix(l, "created by ") {
					// keep "pkg.(*T).method", drop the argument list
					if k := strings.LastIndex(f, "("); k > 0 {
						f = f[:k]
					}
				}
				if j := strings.Index(f, " in goroutine"); j > 0 {
					f = f[:j]
				}
				out = append(out, state+" "+strings.TrimPrefix(f, "go.nanomsg.org/mangos/v3/"))
				break
			}
		}
	}
	sort.Strings(out)
	return out
}

// Quiesce waits until every goroutine other than the caller is parked, in two consecutive
// identical censuses.  It returns false if that does not happen within the timeout.
func Quiesce() bool { return QuiesceT(2 * time.Second) }

func QuiesceT(timeout time.Duration) bool {
	deadline := time.Now().Add(timeout)
	prev := ""
	stable := 0
	for {
		runtime.Gosched()
		c, ok := census()
		if ok && c == prev {
			stable++
			if stable >= 1 {
				return true
			}
		} else {
			stable = 0
		}
		if ok {
			prev = c
		} else {
			prev = ""
		}
		if time.Now().After(deadline) {
			return false
		}
		if !ok {
			time.Sleep(20 * time.Microsecond)
		}
	}
}

// ---------------------------------------------------------------- virtual pipe

type TxRec struct {
	Pipe   uint32
	Header []byte
	Body   []byte
	T      time.Time // when the pipe's SendMsg returned
	T0     time.Time // when the protocol called the pipe's SendMsg (for a held send: before it was parked)
}

type sendReq struct {
	m    *mangos.Message
	resp chan error
}

// VPipe implements mangos.ProtocolPipe; the harness plays both the peer and the core.
type VPipe struct {
	Id     uint32
	Proto  mangos.ProtocolBase
	rx     chan *mangos.Message
	closeQ chan struct{}
	once   sync.Once
	priv   interface{}

	mu      sync.Mutex
	Added   bool
	Closed  bool
	Hold    bool       // park SendMsg until Release
	pending []*sendReq // parked SendMsg calls (at most one per pipe for well-behaved protocols)
	Net     *Net
	SendErr error // when set, SendMsg fails with it (after logging nothing)
}

// Net collects what the protocol transmitted, in order.
type Net struct {
	mu  sync.Mutex
	Tx  []TxRec
	Evs []string // pipe-level events: "closed <id>"
}

func (n *Net) TakeTx() []TxRec {
	n.mu.Lock()
	defer n.mu.Unlock()
	t := n.Tx
	n.Tx = nil
	return t
}

func (n *Net) TakeEvs() []string {
	n.mu.Lock()
	defer n.mu.Unlock()
	t := n.Evs
	n.Evs = nil
	return t
}

func NewVPipe(id uint32, proto mangos.ProtocolBase, net *Net) *VPipe {
	return &VPipe{Id: id, Proto: proto, Net: net, rx: make(chan *mangos.Message, 4096), closeQ: make(chan struct{})}
}

func (p *VPipe) ID() uint32                { return p.Id }
func (p *VPipe) SetPrivate(i interface{})  { p.priv = i }
func (p *VPipe) GetPrivate() interface{}   { return p.priv }
func (p *VPipe) Backlog() int              { return len(p.rx) }
func (p *VPipe) IsClosed() bool            { p.mu.Lock(); defer p.mu.Unlock(); return p.Closed }
func (p *VPipe) PendingSends() int         { p.mu.Lock(); defer p.mu.Unlock(); return len(p.pending) }

func (p *VPipe) RecvMsg() *mangos.Message {
	select {
	case <-p.closeQ:
		return nil
	default:
	}
	select {
	case m := <-p.rx:
		return m
	case <-p.closeQ:
		return nil
	}
}

func (p *VPipe) SendMsg(m *mangos.Message) error {
	t0 := time.Now()
	p.mu.Lock()
	if p.Closed {
		p.mu.Unlock()
		return mangos.ErrClosed
	}
	if p.SendErr != nil {
		e := p.SendErr
		p.mu.Unlock()
		_ = p.Close()
		return e
	}
	if p.Hold {
		r := &sendReq{m: m, resp: make(chan error, 1)}
		p.pending = append(p.pending, r)
		p.mu.Unlock()
		select {
		case e := <-r.resp:
			if e != nil {
				_ = p.Close()
				return e
			}
			p.logTx(m, t0)
			m.Free()
			return nil
		case <-p.closeQ:
			return mangos.ErrClosed
		}
	}
	p.mu.Unlock()
	p.logTx(m, t0)
	m.Free()
	return nil
}

func (p *VPipe) logTx(m *mangos.Message, t0 time.Time) {
	p.Net.mu.Lock()
	p.Net.Tx = append(p.Net.Tx, TxRec{p.Id, append([]byte{}, m.Header...), append([]byte{}, m.Body...), time.Now(), t0})
	p.Net.mu.Unlock()
}

// Release completes the oldest parked SendMsg with the given result.
func (p *VPipe) Release(err error) bool {
	p.mu.Lock()
	if len(p.pending) == 0 {
		p.mu.Unlock()
		return false
	}
	r := p.pending[0]
	p.pending = p.pending[1:]
	p.mu.Unlock()
	r.resp <- err
	return true
}

// Close plays core.pipe.Close: transport closed first, then the protocol is told (if it had accepted the pipe).
func (p *VPipe) Close() error {
	p.once.Do(func() {
		p.mu.Lock()
		p.Closed = true
		added := p.Added
		p.mu.Unlock()
		close(p.closeQ)
		p.Net.mu.Lock()
		p.Net.Evs = append(p.Net.Evs, fmt.Sprintf("closed %d", p.Id))
		p.Net.mu.Unlock()
		if added {
			p.Proto.RemovePipe(p)
		}
	})
	return nil
}

// Attach plays core.socket.addPipe.
func (p *VPipe) Attach() error {
	err := p.Proto.AddPipe(p)
	if err == nil {
		p.mu.Lock()
		p.Added = true
		p.mu.Unlock()
	}
	return err
}

// Inject hands a message (header empty, body = bytes) to the protocol's receiver.
func (p *VPipe) Inject(body []byte) {
	m := mangos.NewMessage(len(body))
	m.Body = append(m.Body, body...)
	p.rx <- m
}

// ---------------------------------------------------------------- parked API calls

type Call struct {
	Kind string // "send" | "recv"
	Done chan struct{}
	Msg  *mangos.Message
	Err  error
	End  time.Time // when the call returned
}

func (c *Call) Finished() bool {
	select {
	case <-c.Done:
		return true
	default:
		return false
	}
}

// Wait waits for the call to finish, at most d.
func (c *Call) Wait(d time.Duration) bool {
	select {
	case <-c.Done:
		return true
	case <-time.After(d):
		return false
	}
}

func GoRecv(ctx mangos.ProtocolContext) *Call {
	c := &Call{Kind: "recv", Done: make(chan struct{})}
	go func() {
		c.Msg, c.Err = ctx.RecvMsg()
		c.End = time.Now()
		close(c.Done)
	}()
	return c
}

func GoSend(ctx mangos.ProtocolContext, hdr, body []byte) *Call {
	c := &Call{Kind: "send", Done: make(chan struct{})}
	m := mangos.NewMessage(len(body))
	m.Body = append(m.Body, body...)
	m.Header = append(m.Header, hdr...)
	c.Msg = m
	go func() {
		c.Err = ctx.SendMsg(m)
		c.End = time.Now()
		close(c.Done)
	}()
	return c
}

func ErrName(e error) string {
	switch e {
	case nil:
		return "ok"
	case mangos.ErrClosed:
		return "closed"
	case mangos.ErrProtoState:
		return "protostate"
	case mangos.ErrRecvTimeout:
		return "recvtimeout"
	case mangos.ErrSendTimeout:
		return "sendtimeout"
	case mangos.ErrCanceled:
		return "canceled"
	case mangos.ErrNoPeers:
		return "nopeers"
	case mangos.ErrProtoOp:
		return "protoop"
	case mangos.ErrBadValue:
		return "badvalue"
	case mangos.ErrBadOption:
		return "badoption"
	case mangos.ErrBadProperty:
		return "badproperty"
	case mangos.ErrTooLong:
		return "toolong"
	case mangos.ErrBadHeader:
		return "badheader"
	case mangos.ErrBadVersion:
		return "badversion"
	case mangos.ErrBadProto:
		return "badproto"
	case mangos.ErrAddrInUse:
		return "addrinuse"
	case mangos.ErrBadTran:
		return "badtran"
	case mangos.ErrConnRefused:
		return "connrefused"
	case mangos.ErrTLSNoConfig:
		return "tlsnoconfig"
	case mangos.ErrTLSNoCert:
		return "tlsnocert"
	case mangos.ErrNotRaw:
		return "notraw"
	case mangos.ErrGarbled:
		return "garbled"
	case mangos.ErrTooShort:
		return "tooshort"
	}
	return "other:" + strings.ReplaceAll(e.Error(), " ", "_")
}

func SortedKeys(m map[string]int) []string {
	ks := make([]string, 0, len(m))
	for k := range m {
		ks = append(ks, k)
	}
	sort.Strings(ks)
	return ks
}

var _ = bytes.Equal
