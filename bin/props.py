# per-property configuration of bin/check and bin/mkmanifest
COMMON_NOTE = ("Trusted: Lean 4.33 kernel (axioms propext/Classical.choice/Quot.sound only, audited each run); the Go->Lean fact extractor; "
               "the correspondence harness (virtual pipes, quiescence census, comparator, oracles); Go runtime semantics. ")
PENDING = {}
PROPS = {
    "C09": {
        "obl": ["Obl.Hop"],
        "sites": ["hop", "protocol/rep", "protocol/xrep", "protocol/respondent", "protocol/xrespondent", "protocol/xpair1", "protocol/xstar"],
        "assumptions": ["device chains are modelled as one receiver per hop (each crossing adds one routing word / bumps the hop byte)"],
        "technique": "Lean 4 theorems over a parametric hop-limit model; guards/initial counters regenerated from the Go source each run; differential execution of all six receivers against the Lean model",
        "level_text": "Unbounded proof (induction over the routing-word list) that a message with k routing words is delivered iff k <= TTL for every TTL, k, ids and payload, for any hop site satisfying a decidable well-formedness obligation; the obligation is re-proved on every run against the drop guard, initial counter and loop shape extracted from each of the six Go receivers, and the executable model (with the extracted parameters) is run against the real receivers on the TTL x hops grid (exhaustive in the thorough tier).",
        "level_note": COMMON_NOTE + "Modelled, not verified: the Go loops are represented by their extracted guard, initial value and statement order; Device chains by composition of single hops.",
    },
    "C01": {
        "obl": ["Obl.Wire"],
        "sites": ["message.go", "transport"],
        "assumptions": ["net.Buffers.WriteTo, io.ReadFull, binary.Read, crypto/tls and gorilla/websocket move exactly the bytes given", "sync.Pool returns some previously Put buffer or a new one"],
        "technique": "Lean 4 theorems (stream round trip by induction over the message list, pool capacity invariant) over a codec model whose guard/length/order facts are regenerated from conn.go, connipc_posix.go, ws.go and message.go each run; differential execution of the real conn code (fragmented in-memory streams) and of real sockets over 6 transports x 16 socket kinds",
        "level_text": "Unbounded proof that any sequence of messages of any sizes written back to back decodes to exactly that sequence (never split, merged, truncated or padded), that total = limit is delivered and limit+1 refused, and that NewMessage returns capacity >= size in every reachable pool state; hypotheses are decidable well-formedness obligations re-proved each run against the extracted size guard, length expression, buffer order, prefix byte, pool class table and comparison operators; the executable codec is compared with the real transport code on fragmented streams and boundary sizes, and real sockets carry position-dependent bodies over inproc/ipc/tcp/tls/ws/wss for all 8 patterns cooked and raw.",
        "level_note": COMMON_NOTE + "Modelled, not verified: the kernel/TLS/WebSocket layers; per-pattern header add/strip is validated end to end by the socket runs (and by C05/C09 for the routing headers) rather than proved here.",
    },
    "C15": {
        "obl": ["Obl.Wire", "Obl.Proto"],
        "sites": ["transport", "protocol"],
        "assumptions": ["gorilla/websocket implements RFC 6455 framing and subprotocol negotiation"],
        "technique": "Lean 4 theorem accept_iff_exact (a peer header is accepted iff it is exactly 00 'S' 'P' 00 <peer be16> 00 00) over handshake checks regenerated from conn.handshake; protocol-number table obligations by kernel evaluation; Lean codec used as the independent implementation against the real conn code in both directions",
        "level_text": "Proof for all 2^64 possible 8-byte headers and every expected peer number that acceptance is equivalent to exact equality with the SP header (so every deviation is refused), plus frame layout theorems; the reject conditions, their order and errors, the header layout, the 12 protocol numbers, the Self/Peer involution of all 24 packages and the WebSocket subprotocol/frame-type strings are regenerated from the source and re-checked each run; all 12 protocols x {tcp-style, ipc-style} handshakes and all single-byte deviations (sampled in quick, all 8x255 in thorough) are executed against the real code and compared with the model.",
        "level_note": COMMON_NOTE + "TLS record layer and WebSocket framing are trusted libraries; ws subprotocol strings are tied syntactically (extracted expressions), not by a raw ws peer.",
    },
    "C16": {
        "obl": ["Obl.Wire"],
        "sites": ["transport"],
        "assumptions": ["a panic in any library goroutine terminates the harness process and is reported as a harness failure with its log"],
        "technique": "Lean 4 theorems (decode totality / nothing invented, refusal before reading for negative or over-limit lengths, per-pattern parse conservation) over the regenerated size guard; guard-dominates-allocation fact extracted from both Recv functions; structured hostile streams and bodies executed against the real code and compared with the model",
        "level_text": "Proof that for every byte string the stream decoder delivers only a split of what the peer sent after the framing bytes, that any announced size that is negative or above a set limit is refused whatever follows (the extractor checks the guard precedes the allocation), and that every pattern's header parser conserves bytes; the real conn code is fed negative/huge lengths, limit+-1, truncation at every offset and random mutations, every protocol's receiver is fed the word catalogue of lengths 0..15 followed by a well-formed sentinel that must still get through, and a stalled handshake must not delay another peer.",
        "level_note": COMMON_NOTE + "Absence of panics and of unbounded allocation is observed (process survival, GOMEMLIMIT), not proved; REQ/SURVEYOR/SUB receive paths are covered by C03/C07/C06.",
    },
    "C06": {
        "obl": ["Obl.Sub"],
        "sites": ["protocol/sub", "protocol/xpub"],
        "assumptions": ["atomic-step granularity: each receiver iteration / API call is one step (justified by the lock discipline, C11/C12)", "Go select picks any ready case: modelled as a set of allowed outcomes"],
        "technique": "Lean 4 state machines for SUB and PUB/XPUB with an inductive invariant over all operation histories (queued messages match current subscriptions); machines validated step by step against the real protocols driven through virtual pipes under a goroutine-census quiescence barrier",
        "level_text": "Proof by induction over all finite histories of subscribe/unsubscribe/publish/receive/resize/open/close on any number of contexts and publishers (every interleaving of the protocol's atomic steps) that Recv only returns messages matching the context's current subscriptions, that matching is exactly prefix-of-body, that contexts do not interfere, that overflow drops the oldest, and that PUB hands every message to every idle subscriber pipe with per-pipe independence; the same executable machines are compared with protocol/sub and protocol/(x)pub on random histories over adversarial topics (empty, equal, nested, non-UTF8), including slow-subscriber back-pressure and send failures.",
        "level_note": COMMON_NOTE + "Per-publisher order / at-most-once are checked by the harness oracle on sequence-numbered messages, not proved; XSUB (no filtering) is covered by C16's parse runs.",
    },
    "C02": {
        "obl": [],
        "sites": ["protocol/xpair", "protocol/xpush", "protocol/xpull"],
        "assumptions": ["atomic-step granularity (one goroutine action between two quiescent states)", "Go channel wait queues are FIFO", "goroutine scheduling fairness: an enabled step is eventually taken"],
        "technique": "Lean 4 state machines for (X)PAIR, (X)PUSH, (X)PULL with ghost histories; sublist invariants proved by induction over all operation/fault histories; machines compared step by step with the real protocols through virtual pipes (candidate-set tracking where Go's select is non-deterministic); real-socket multiset/order runs as oracle",
        "level_text": "Proof over all finite histories (sends, slow peers, send failures, peer drops, extra connection attempts, resizes, in any interleaving) that what a PAIR peer / each PUSH pipe is handed and what PAIR/PULL Recv returns is, in order, a subsequence of what was accepted / read — no duplication, reordering or invention under any fault sequence — that a second PAIR connection is refused leaving the state unchanged and a new one admitted after the peer has gone, and that the PUSH scheduler step is enabled whenever a message is queued and a pipe ready; for write-queue length 0 the negation of progress is proved of the model (known finding D7). The machines are run against protocol/(x)pair, (x)push, (x)pull on random histories (queue lengths 0-3 and 128), plus real sockets with concurrent senders.",
        "level_note": COMMON_NOTE + "Completion of Send 'whenever a peer is able' is proved as enabledness of the hand-off step (scheduler fairness assumed); with several Recv calls blocked at once the wake-up order after a resize is a runtime race and is excluded from the driven histories.",
    },
    "C05": {
        "obl": ["Obl.Hop"],
        "sites": ["protocol/rep", "protocol/respondent", "protocol/xrep", "protocol/xrespondent"],
        "assumptions": ["atomic-step granularity; Go channel wait queues are FIFO; select picks any ready case (modelled as a set of outcomes)"],
        "technique": "Lean 4 state machine for rep/respondent/xrep/xrespondent (contexts, per-pipe reply queues, routing-header parser with hop parameters regenerated from the source) with a ghost record of every reply; inductive invariant over all histories; machine compared step by step with the four real protocols through virtual pipes",
        "level_text": "Proof by induction over all finite histories (requests from any pipes with any routing headers, Recv/Send on any number of contexts, slow and failing reply pipes, the requesting pipe closing at any moment, contexts opened and closed) that every reply handed to a pipe went to the pipe of the request it answers with exactly that request's routing header, that each context's backtrace is that of its own last Recv, that Send with nothing pending fails with protocol-state and no effect, that a reply to a departed connection is discarded, and that raw sockets route by the first header word; the same executable machine is compared with protocol/rep, respondent, xrep, xrespondent on random histories and an independent oracle checks each transmitted reply against the request it answers.",
        "level_note": COMMON_NOTE + "Chains of devices are covered as compositions of single hops (C09 proves the per-hop header algebra); the end-to-end device runs are in C09's harness.",
    },
    "C08": {
        "obl": ["Obl.Hop"],
        "sites": ["protocol/xbus", "protocol/xstar"],
        "assumptions": ["atomic-step granularity; topologies are modelled as forests re-rooted at the sender with pairwise distinct member ids"],
        "technique": "Lean 4 state machine for bus/xbus/star/xstar (fan-out except source, forwarding by the receiver with the hop guard regenerated from xstar) and a structural-induction theorem over all finite loop-free topologies; machine compared step by step with the four real protocols; real inproc topologies as oracle",
        "level_text": "Proof that a BUS send is transmitted only to pipes other than the one named by the raw header, unchanged, and reaches every idle other peer; that BUS receive paths never forward; that a STAR member forwards what arrives to all and only its other peers with the hop byte bumped; and, by structural induction over every finite forest (any tree re-rooted at any sender, ids distinct), that flooding with this rule delivers every message to every other member exactly once and never to its sender. The executable machine is compared with protocol/bus, xbus, star, xstar on random histories (forwarding headers naming live / dead / malformed ids, hop bytes 0..8, slow and failing peers) and small real BUS meshes/chains and STAR stars/trees are run end to end.",
        "level_note": COMMON_NOTE + "Queue overflow ('queue space permitting') is part of the machine; concurrent sends in the real topologies are sequentialised by the harness.",
    },
    "C07": {
        "obl": ["Obl.Ids"],
        "sites": ["protocol/surveyor"],
        "assumptions": ["time.AfterFunc never fires early; the harness clock is monotonic; timers overdue by more than 400 ms have fired",
                        "survey ids do not wrap around within one scenario (fewer than 2^31 surveys)"],
        "technique": "Lean 4 state machine for SURVEYOR with timers constrained by the harness's monotonic clock (may fire once due, must have fired once overdue) and a ghost record of every delivered response; inductive invariant over all histories; machine compared step by step with protocol/surveyor through virtual pipes with canonicalised ids and real 60 ms survey times",
        "level_text": "Proof by induction over all histories (surveys, receives, context opens/closes, responses with current / earlier / foreign / never-issued ids, ids without the request bit, short bodies, timer firings at any admissible moment) that every response handed to the application answered the survey that was its context's current one when that Recv began; that unregistered or malformed ids change nothing; that Recv with no survey in progress fails at once with protocol-state; that a new survey unregisters the old one; that every idle respondent is sent each survey; that the expiry timer never fires early, never fires for survey time 0, and has fired once overdue. The machine is run against the real surveyor with 60 ms survey times and real sleeps across expiry, and an independent oracle checks ids, lateness and promptness.",
        "level_note": COMMON_NOTE + "Real-time behaviour of time.AfterFunc is assumed, not proved; RESPONDENT's side ('each answer reaches only the surveyor that asked') is C05's theorem reply_to_origin; XSURVEYOR (raw, no survey state) is covered by C16's parse runs.",
    },
}
