# per-property configuration of bin/check and bin/mkmanifest
COMMON_NOTE = ("Trusted: Lean 4.33 kernel (axioms propext/Classical.choice/Quot.sound only, audited each run); the Go->Lean fact extractor; "
               "the correspondence harness (virtual pipes, quiescence census, comparator, oracles); Go runtime semantics. ")
PENDING = {}
PROPS = {
    "C09": {
        "obl": ["Obl.Hop"],
        "sites": ["hop", "protocol/rep", "protocol/xrep", "protocol/respondent", "protocol/xrespondent", "protocol/xpair1", "protocol/xstar"],
        "assumptions": ["device chains are modelled as one receiver per hop (each crossing adds one routing word / bumps the hop byte)"],
        "technique": "Lean 4 theorems over a parametric hop-limit model; guards/initial counters regenerated from the Go source each run; differential execution of all six receivers against the Lean model",
        "level_text": "Unbounded proof (induction over the routing-word list) that a message with k routing words is delivered iff k <= TTL for every TTL, k, ids and payload, for any hop site satisfying a decidable well-formedness obligation; the obligation is re-proved on every run against the drop guard, initial counter and loop shape extracted from each of the six Go receivers, and the executable model (with the extracted parameters) is run against the real receivers on the TTL x hops grid (exhaustive in the thorough tier).",
        "level_note": COMMON_NOTE + "Modelled, not verified: the Go loops are represented by their extracted guard, initial value and statement order; Device chains by composition of single hops.",
    },
}
